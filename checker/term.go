package main

import (
	"fmt"
	"go/constant"
	"go/token"
	"go/types"
	"sort"
	"strings"

	"golang.org/x/tools/go/ssa"
)

// Term is a canonical, register-independent rendering of an SSA value on one path (E2).
type Term struct {
	Op   string
	Sym  string
	Args []*Term
	Obj  types.Object // field, callee, global
	Typ  types.Type
	Val  ssa.Value // originating value (site identity for allocs, phis, calls)
	Fn   *ssa.Function
	N    int
	Ep   int // epoch / occurrence tag
	key  string
	// loop variable bookkeeping (Op == "loopvar")
	Hdr *ssa.BasicBlock
}

func siteKey(v ssa.Value) string {
	if v == nil {
		return "?"
	}
	if in, ok := v.(ssa.Instruction); ok && in.Block() != nil {
		b := in.Block()
		for i, x := range b.Instrs {
			if x == in {
				return fmt.Sprintf("%s#b%d.%d", fnShort(b.Parent()), b.Index, i)
			}
		}
	}
	return v.Name()
}

func fnShort(f *ssa.Function) string {
	if f == nil {
		return "?"
	}
	return f.Name()
}

func objKey(o types.Object) string {
	if o == nil {
		return "?"
	}
	if v, ok := o.(*types.Var); ok && v.IsField() {
		// fields of generic types: origin gives one object for all instantiations
		v = v.Origin()
		return fmt.Sprintf("%s@%d", v.Name(), v.Pos())
	}
	if f, ok := o.(*types.Func); ok {
		f = f.Origin()
		return f.FullName()
	}
	if o.Pkg() != nil {
		return o.Pkg().Path() + "." + o.Name()
	}
	return o.Name()
}

// Key is the canonical string: equal keys = same value on this path.
func (t *Term) Key() string {
	if t == nil {
		return "_"
	}
	if t.key != "" {
		return t.key
	}
	var sb strings.Builder
	switch t.Op {
	case "param":
		fmt.Fprintf(&sb, "p%d", t.N)
		if t.Fn != nil && t.Fn.Parent() != nil {
			fmt.Fprintf(&sb, "@%s", t.Fn.Name())
		}
	case "free":
		fmt.Fprintf(&sb, "fv%d@%s", t.N, fnShort(t.Fn))
	case "const":
		sb.WriteString("k(" + t.Sym + ")")
	case "zero":
		sb.WriteString("zero(" + typeStr(t.Typ) + ")")
	case "global":
		sb.WriteString("g(" + objKey(t.Obj) + ")")
	case "func":
		sb.WriteString("fn(" + t.Sym + ")")
	case "alloc", "mkslice", "mkmap", "mkchan", "closure", "select", "range":
		sb.WriteString(t.Op + "(" + siteKey(t.Val))
		for _, a := range t.Args {
			sb.WriteString("," + a.Key())
		}
		sb.WriteString(")")
	case "loopvar":
		sb.WriteString("lv(" + siteKey(t.Val) + ")")
	case "field", "faddr":
		sb.WriteString(t.Op + "(" + t.Args[0].Key() + "," + objKey(t.Obj) + ")")
	case "load", "lookup", "index":
		sb.WriteString(t.Op + "(")
		for i, a := range t.Args {
			if i > 0 {
				sb.WriteString(",")
			}
			sb.WriteString(a.Key())
		}
		fmt.Fprintf(&sb, ";e%d)", t.Ep)
	case "call", "next", "recv":
		sb.WriteString(t.Op + "(" + t.Sym)
		for _, a := range t.Args {
			sb.WriteString("," + a.Key())
		}
		fmt.Fprintf(&sb, ";#%d)", t.Ep)
	case "extract":
		fmt.Fprintf(&sb, "x%d(%s)", t.N, t.Args[0].Key())
	case "conv", "tassert", "iface":
		sb.WriteString(t.Op + "[" + typeStr(t.Typ) + "](" + t.Args[0].Key() + ")")
	case "struct":
		sb.WriteString("struct[" + typeStr(t.Typ) + "](")
		for i, a := range t.Args {
			if i > 0 {
				sb.WriteString(",")
			}
			sb.WriteString(a.Key())
		}
		sb.WriteString(")")
	default:
		sb.WriteString(t.Op + ":" + t.Sym + "(")
		for i, a := range t.Args {
			if i > 0 {
				sb.WriteString(",")
			}
			sb.WriteString(a.Key())
		}
		sb.WriteString(")")
	}
	t.key = sb.String()
	return t.key
}

func typeStr(t types.Type) string {
	if t == nil {
		return "?"
	}
	return types.TypeString(t, func(p *types.Package) string { return p.Name() })
}

// String is a human-readable rendering (for replay files and dumps).
func (t *Term) String() string {
	if t == nil {
		return "_"
	}
	switch t.Op {
	case "param":
		if t.Sym != "" {
			return t.Sym
		}
		return fmt.Sprintf("p%d", t.N)
	case "free":
		return "^" + t.Sym
	case "const":
		return t.Sym
	case "zero":
		return "zero[" + typeStr(t.Typ) + "]"
	case "global":
		return t.Obj.Name()
	case "func":
		return t.Sym
	case "alloc":
		return "new(" + typeStr(t.Typ) + ")@" + siteKey(t.Val)
	case "mkslice":
		return fmt.Sprintf("make(%s,%s,%s)", typeStr(t.Typ), t.Args[0], t.Args[1])
	case "mkmap":
		return "make(" + typeStr(t.Typ) + ")@" + siteKey(t.Val)
	case "mkchan":
		return fmt.Sprintf("make(%s,%s)", typeStr(t.Typ), t.Args[0])
	case "closure":
		return "closure " + t.Sym
	case "loopvar":
		return "φ" + t.Sym
	case "field":
		return t.Args[0].String() + "." + t.Obj.Name()
	case "faddr":
		return "&" + t.Args[0].String() + "." + t.Obj.Name()
	case "iaddr":
		return "&" + t.Args[0].String() + "[" + t.Args[1].String() + "]"
	case "load":
		a := t.Args[0]
		s := a.String()
		if strings.HasPrefix(s, "&") {
			return s[1:]
		}
		return "*" + s
	case "index":
		return t.Args[0].String() + "[" + t.Args[1].String() + "]"
	case "lookup":
		return t.Args[0].String() + "[" + t.Args[1].String() + "]"
	case "slice":
		p := func(x *Term) string {
			if x == nil || x.Op == "none" {
				return ""
			}
			return x.String()
		}
		return t.Args[0].String() + "[" + p(t.Args[1]) + ":" + p(t.Args[2]) + "]"
	case "bin":
		return "(" + t.Args[0].String() + " " + t.Sym + " " + t.Args[1].String() + ")"
	case "un":
		return t.Sym + t.Args[0].String()
	case "conv":
		return typeStr(t.Typ) + "(" + t.Args[0].String() + ")"
	case "iface":
		return "iface(" + t.Args[0].String() + ")"
	case "tassert":
		return t.Args[0].String() + ".(" + typeStr(t.Typ) + ")"
	case "call":
		var as []string
		for _, a := range t.Args {
			as = append(as, a.String())
		}
		return fmt.Sprintf("%s(%s)#%d", t.Sym, strings.Join(as, ", "), t.Ep)
	case "builtin":
		var as []string
		for _, a := range t.Args {
			as = append(as, a.String())
		}
		return fmt.Sprintf("%s(%s)", t.Sym, strings.Join(as, ", "))
	case "extract":
		return fmt.Sprintf("%s.%d", t.Args[0], t.N)
	case "recv":
		return "<-" + t.Args[0].String()
	case "struct":
		var as []string
		for _, a := range t.Args {
			as = append(as, a.String())
		}
		return typeStr(t.Typ) + "{" + strings.Join(as, ", ") + "}"
	case "none":
		return ""
	}
	var as []string
	for _, a := range t.Args {
		as = append(as, a.String())
	}
	return t.Op + ":" + t.Sym + "(" + strings.Join(as, ", ") + ")"
}

func mk(op string, args ...*Term) *Term { return &Term{Op: op, Args: args} }

var noneTerm = &Term{Op: "none"}

func constTerm(c *ssa.Const) *Term {
	if c.Value == nil {
		// nil or zero value of an aggregate / type parameter
		if isNillable(c.Type()) {
			return &Term{Op: "const", Sym: "nil", Typ: c.Type()}
		}
		return &Term{Op: "zero", Typ: c.Type()}
	}
	s := c.Value.ExactString()
	if c.Value.Kind() == constant.Float || c.Value.Kind() == constant.Int {
		if v, ok := constant.Int64Val(constant.ToInt(c.Value)); ok && constant.ToInt(c.Value).Kind() == constant.Int {
			s = fmt.Sprint(v)
		} else if u, ok := constant.Uint64Val(constant.ToInt(c.Value)); ok {
			s = fmt.Sprint(u)
		}
	}
	return &Term{Op: "const", Sym: s, Typ: c.Type()}
}

func intConst(n int64) *Term {
	return &Term{Op: "const", Sym: fmt.Sprint(n), Typ: types.Typ[types.Int]}
}

func isNillable(t types.Type) bool {
	switch u := t.Underlying().(type) {
	case *types.Pointer, *types.Slice, *types.Map, *types.Chan, *types.Signature, *types.Interface:
		_ = u
		if _, ok := t.(*types.TypeParam); ok {
			return false
		}
		return true
	case *types.Basic:
		return u.Kind() == types.UnsafePointer || u.Kind() == types.UntypedNil
	}
	return false
}

// IsConst reports whether t is the constant with the given rendering.
func (t *Term) IsConst(s string) bool { return t != nil && t.Op == "const" && t.Sym == s }

func (t *Term) IsNil() bool { return t.IsConst("nil") }

// IntVal returns the integer value of a constant term.
func (t *Term) IntVal() (int64, bool) {
	if t == nil || t.Op != "const" {
		return 0, false
	}
	var v int64
	if _, err := fmt.Sscan(t.Sym, &v); err != nil {
		return 0, false
	}
	if fmt.Sprint(v) != t.Sym {
		return 0, false
	}
	return v, true
}

// Walk visits t and all sub-terms.
func (t *Term) Walk(f func(*Term) bool) {
	if t == nil {
		return
	}
	if !f(t) {
		return
	}
	for _, a := range t.Args {
		a.Walk(f)
	}
}

// Contains reports whether some sub-term satisfies pred.
func (t *Term) Contains(pred func(*Term) bool) bool {
	found := false
	t.Walk(func(x *Term) bool {
		if found {
			return false
		}
		if pred(x) {
			found = true
			return false
		}
		return true
	})
	return found
}

func (t *Term) ContainsKey(k string) bool {
	return t.Contains(func(x *Term) bool { return x.Key() == k })
}

// ---------------------------------------------------------------------------
// Polynomial normal form over opaque atoms (integer arithmetic only).

type Poly struct {
	M     map[string]int64 // monomial key ("" = constant) -> coefficient
	Atoms map[string]*Term // atom key -> term
}

func newPoly() *Poly { return &Poly{M: map[string]int64{}, Atoms: map[string]*Term{}} }

func (p *Poly) clone() *Poly {
	q := newPoly()
	for k, v := range p.M {
		q.M[k] = v
	}
	for k, v := range p.Atoms {
		q.Atoms[k] = v
	}
	return q
}

func (p *Poly) norm() *Poly {
	for k, v := range p.M {
		if v == 0 {
			delete(p.M, k)
		}
	}
	return p
}

func polyConst(c int64) *Poly { p := newPoly(); p.M[""] = c; return p.norm() }

func polyAtom(t *Term) *Poly {
	p := newPoly()
	k := t.Key()
	p.M[k] = 1
	p.Atoms[k] = t
	return p
}

func (p *Poly) Add(q *Poly, sign int64) *Poly {
	r := p.clone()
	for k, v := range q.M {
		r.M[k] += sign * v
	}
	for k, v := range q.Atoms {
		r.Atoms[k] = v
	}
	return r.norm()
}

const monoSep = "\x00*\x00"

func mulMono(a, b string) string {
	if a == "" {
		return b
	}
	if b == "" {
		return a
	}
	parts := append(strings.Split(a, monoSep), strings.Split(b, monoSep)...)
	sort.Strings(parts)
	return strings.Join(parts, monoSep)
}

func (p *Poly) Mul(q *Poly) *Poly {
	r := newPoly()
	for k1, v1 := range p.M {
		for k2, v2 := range q.M {
			r.M[mulMono(k1, k2)] += v1 * v2
		}
	}
	for k, v := range p.Atoms {
		r.Atoms[k] = v
	}
	for k, v := range q.Atoms {
		r.Atoms[k] = v
	}
	return r.norm()
}

func (p *Poly) Equal(q *Poly) bool {
	if len(p.M) != len(q.M) {
		return false
	}
	for k, v := range p.M {
		if q.M[k] != v {
			return false
		}
	}
	return true
}

func (p *Poly) IsConst() (int64, bool) {
	if len(p.M) == 0 {
		return 0, true
	}
	if len(p.M) == 1 {
		if v, ok := p.M[""]; ok {
			return v, true
		}
	}
	return 0, false
}

// Coef returns the coefficient of the monomial made of the given atom keys.
func (p *Poly) Coef(atomKeys ...string) int64 {
	ks := append([]string(nil), atomKeys...)
	sort.Strings(ks)
	return p.M[strings.Join(ks, monoSep)]
}

// Monos lists monomials as slices of atom keys.
func (p *Poly) Monos() [][]string {
	var out [][]string
	var keys []string
	for k := range p.M {
		keys = append(keys, k)
	}
	sort.Strings(keys)
	for _, k := range keys {
		if k == "" {
			out = append(out, nil)
		} else {
			out = append(out, strings.Split(k, monoSep))
		}
	}
	return out
}

func (p *Poly) String() string {
	var keys []string
	for k := range p.M {
		keys = append(keys, k)
	}
	sort.Strings(keys)
	var parts []string
	for _, k := range keys {
		c := p.M[k]
		if k == "" {
			parts = append(parts, fmt.Sprint(c))
			continue
		}
		var names []string
		for _, a := range strings.Split(k, monoSep) {
			if t := p.Atoms[a]; t != nil {
				names = append(names, t.String())
			} else {
				names = append(names, a)
			}
		}
		m := strings.Join(names, "·")
		if c == 1 {
			parts = append(parts, m)
		} else {
			parts = append(parts, fmt.Sprintf("%d·%s", c, m))
		}
	}
	if len(parts) == 0 {
		return "0"
	}
	return strings.Join(parts, " + ")
}

func isIntegerType(t types.Type) bool {
	if t == nil {
		return false
	}
	b, ok := t.Underlying().(*types.Basic)
	return ok && b.Info()&types.IsInteger != 0
}

// ToPoly renders an integer-typed term as a polynomial over opaque atoms.
func ToPoly(t *Term) *Poly {
	if t == nil {
		return polyConst(0)
	}
	switch t.Op {
	case "const":
		if v, ok := t.IntVal(); ok {
			return polyConst(v)
		}
	case "bin":
		switch t.Sym {
		case "+":
			if isIntegerType(t.Typ) {
				return ToPoly(t.Args[0]).Add(ToPoly(t.Args[1]), 1)
			}
		case "-":
			if isIntegerType(t.Typ) {
				return ToPoly(t.Args[0]).Add(ToPoly(t.Args[1]), -1)
			}
		case "*":
			if isIntegerType(t.Typ) {
				return ToPoly(t.Args[0]).Mul(ToPoly(t.Args[1]))
			}
		}
	case "un":
		if t.Sym == "-" && isIntegerType(t.Typ) {
			return polyConst(0).Add(ToPoly(t.Args[0]), -1)
		}
	case "builtin":
		// len of a window x[lo:hi] is hi - lo, of make([]T, n) is n
		if t.Sym == "len" && len(t.Args) == 1 && t.Args[0] != nil && (t.Args[0].Op == "slice" || t.Args[0].Op == "mkslice") {
			if k := knownLen(t.Args[0]); k != nil && !(k.Op == "builtin" && k.Sym == "len" && len(k.Args) == 1 && k.Args[0] == t.Args[0]) {
				return ToPoly(k)
			}
		}
	}
	return polyAtom(t)
}

// ---------------------------------------------------------------------------
// Conditions

// Rel is a comparison normalised for polarity: A Op B holds on the path.
type Rel struct {
	Op   string // < <= == != > >=  or "true" (A is a boolean term that holds) / "false"
	A, B *Term
}

func negOp(op string) string {
	switch op {
	case "<":
		return ">="
	case "<=":
		return ">"
	case ">":
		return "<="
	case ">=":
		return "<"
	case "==":
		return "!="
	case "!=":
		return "=="
	}
	return op
}

func flipOp(op string) string {
	switch op {
	case "<":
		return ">"
	case "<=":
		return ">="
	case ">":
		return "<"
	case ">=":
		return "<="
	}
	return op
}

// NormRel turns a branch atom into a relation that holds on the path.
func NormRel(t *Term, pol bool) Rel {
	for t.Op == "un" && t.Sym == "!" {
		t = t.Args[0]
		pol = !pol
	}
	if t.Op == "bin" {
		switch t.Sym {
		case "<", "<=", ">", ">=", "==", "!=":
			op := t.Sym
			if !pol {
				op = negOp(op)
			}
			a, b := t.Args[0], t.Args[1]
			// canonical orientation: constants (nil, zero, literals) on the right
			if isConstLike(a) && !isConstLike(b) {
				a, b, op = b, a, flipOp(op)
			}
			return Rel{op, a, b}
		}
	}
	if pol {
		return Rel{"true", t, nil}
	}
	return Rel{"false", t, nil}
}

// GtZero normalises an integer relation to P > 0, P == 0 or P != 0.
// kind is ">", "=", "!=" ; ok=false when the relation is not over integers.
func (r Rel) IntNorm() (p *Poly, kind string, ok bool) {
	if r.B == nil || !isIntegerType(r.A.Typ) && !isIntegerType(r.B.Typ) {
		return nil, "", false
	}
	a, b := ToPoly(r.A), ToPoly(r.B)
	switch r.Op {
	case "<": // b - a > 0
		return b.Add(a, -1), ">", true
	case "<=": // b - a + 1 > 0
		return b.Add(a, -1).Add(polyConst(1), 1), ">", true
	case ">":
		return a.Add(b, -1), ">", true
	case ">=":
		return a.Add(b, -1).Add(polyConst(1), 1), ">", true
	case "==":
		return canonSign(a.Add(b, -1)), "=", true
	case "!=":
		return canonSign(a.Add(b, -1)), "!=", true
	}
	return nil, "", false
}

// canonSign fixes the sign of an (in)equation P = 0 so that P and -P coincide.
func canonSign(p *Poly) *Poly {
	var keys []string
	for k := range p.M {
		if k != "" {
			keys = append(keys, k)
		}
	}
	if len(keys) == 0 {
		if p.M[""] < 0 {
			return polyConst(0).Add(p, -1)
		}
		return p
	}
	sort.Strings(keys)
	if p.M[keys[0]] < 0 {
		return polyConst(0).Add(p, -1)
	}
	return p
}

func (r Rel) String() string {
	switch r.Op {
	case "true":
		return r.A.String()
	case "false":
		return "!" + r.A.String()
	}
	return r.A.String() + " " + r.Op + " " + r.B.String()
}

var _ = token.ADD

func isConstLike(t *Term) bool {
	return t != nil && (t.Op == "const" || t.Op == "zero")
}

// subtermsWhere: the sub-terms of t (t included) that satisfy pred, outermost first.
func subtermsWhere(t *Term, pred func(*Term) bool) []*Term {
	var out []*Term
	t.Walk(func(x *Term) bool {
		if pred(x) {
			out = append(out, x)
		}
		return true
	})
	return out
}
